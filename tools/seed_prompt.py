#!/usr/bin/env python3
"""print the sub-agent prompt for one property id (nothing from /verif except the property text)"""
import json, sys
pid = sys.argv[1]
p = [json.loads(l) for l in open('/verif/properties.jsonl') if json.loads(l)['id'] == pid][0]
wt = '/tmp/wt_%s' % pid
print(f"""You are working in a scratch git worktree of the Rust project bacpop/ska.rust (SKA2, a split k-mer analysis CLI/library) at {wt}. Cargo works offline only: always pass --offline and use `export CARGO_TARGET_DIR={wt}/target`. Work ONLY inside {wt}; never read or write /repo or /verif or any other directory except a temp dir of your own under /tmp.

The following property must hold for the unmodified code:

TITLE: {p['title']}
STATEMENT: {p['statement']}
QUANTIFIED OVER: {p['quantifier']['text']}

YOUR TASK: design ONE small change to the Rust sources under src/ that BREAKS this property while
 (1) the crate still compiles without errors, and
 (2) the whole existing test suite still passes unedited: `cargo test --offline` in the worktree (44 unit/integration tests plus doctests).
The change must be realistic (the kind of slip, refactoring mistake or well-meant 'optimisation' a contributor could make) and SUBTLE: it must need something specific to manifest - an unusual input, a specific flag combination, a multi-step sequence of commands, a particular thread count, a boundary value, or two cooperating sites that each look fine alone. It must NOT be something ordinary use would expose at once. Do not add comments that reveal it. Prefer changing existing logic over adding new dead code. Read the relevant source first (src/lib.rs has the CLI documentation; modules: ska_dict*, merge_ska_dict, merge_ska_array, ska_ref*, generic_modes, io_utils, coverage, skalo/*).

DELIVERABLES in {wt}/seed/ :
 - patch.diff : output of `git diff -- src` for the change (must apply with `git apply` on a clean checkout of HEAD).
 - demo.sh : a bash script taking the path of a source tree as $1 (default: the worktree) that builds the `ska` binary there (cargo build --offline, CARGO_TARGET_DIR=$1/target), creates its small inputs itself in a fresh temp dir (inline heredocs / a few lines of python3), runs ska, and exits 0 when the property holds on that input and non-zero (printing what differs) when it is violated. It must FAIL with your change applied and PASS on the unmodified tree.
 - meta.json : {{"property": "{pid}", "summary": "<one sentence: what was changed>", "needs": "<what is required for it to manifest>", "files": ["src/..."], "commands_run": ["..."]}}

VERIFY YOURSELF, in this order: apply the change; `cargo build --offline`; `cargo test --offline` (everything must pass - paste the totals in your report); run demo.sh (must fail); revert with `git checkout -- src`; run demo.sh again (must pass). Leave the worktree with src/ reverted and seed/ in place. If your first idea makes an existing test fail, pick another. Report: the summary, the test totals, and the two demo outcomes.""")
