#!/usr/bin/env python3
"""Self-validation of the checker (DESIGN §9): apply each seeded variant of mutants/table.py to a scratch copy
of /repo's working tree (outside /repo and /verif), require that it still compiles, run the named checks on it
and require that 'break' variants are reported (with the expected rule key) and 'keep' variants stay silent.

usage: tools/mutate.py [--props C01,C02] [--ids a,b] [--jobs 4] [--json out.json]
"""
import argparse
import concurrent.futures as cf
import json
import os
import re
import shutil
import subprocess
import sys
import tempfile
import time

V = os.path.dirname(os.path.dirname(os.path.abspath(__file__)))
sys.path.insert(0, V)
from mutants.table import M  # noqa: E402

SCR = '/tmp/skamut'


def apply_edits(root, edits):
    for e in edits:
        p = os.path.join(root, e['file'])
        s = open(p).read()
        occ = e.get('occ', 1)
        idx = -1
        for _ in range(occ):
            idx = s.find(e['old'], idx + 1)
            if idx < 0:
                return False
        s = s[:idx] + e['new'] + s[idx + len(e['old']):]
        open(p, 'w').write(s)
    return True


def run_one(m, worker, repo):
    t0 = time.time()
    wd = os.path.join(SCR, 'w%d' % worker)
    os.makedirs(wd, exist_ok=True)
    subprocess.run(['rsync', '-a', '--delete', '--exclude', 'target', '--exclude', '.git', repo + '/', wd + '/'], check=True)
    if not apply_edits(wd, m['edits']):
        return dict(id=m['id'], status='skipped', why='edit does not apply to the current tree', wall=time.time() - t0)
    tgt = os.path.join(V, '.cache', 'target-w%d' % worker)
    import fcntl
    with open(os.path.join(V, '.cache', 'lock-w%d' % worker), 'w') as lk:
        fcntl.flock(lk, fcntl.LOCK_EX)      # one user of a worker target dir at a time (parallel thorough runs)
        return _run_locked(m, worker, wd, tgt, t0)


def _run_locked(m, worker, wd, tgt, t0):
    if not os.path.isdir(tgt) and os.path.isdir(os.path.join(V, '.cache', 'target')):
        subprocess.run(['cp', '-a', os.path.join(V, '.cache', 'target'), tgt], check=True)
    facts = os.path.join(V, '.cache', 'facts-mut-w%d-%d.json' % (worker, os.getpid()))
    env = dict(os.environ, SKAMIR_TARGET=tgt)
    r = subprocess.run([os.path.join(V, 'extract.sh'), facts, wd], env=env, capture_output=True, text=True)
    if r.returncode != 0 or not os.path.exists(facts):
        return dict(id=m['id'], status='invalid', why='does not compile: ' + r.stderr[-300:], wall=time.time() - t0)
    evd = tempfile.mkdtemp(prefix='skamut_ev_')
    viol = []
    out_all = ''
    try:
        for p in m['props']:
            rr = subprocess.run([sys.executable, '-m', 'sa.run', p, '--facts', facts], cwd=V, capture_output=True, text=True,
                                env=dict(os.environ, VERIF_EVIDENCE_DIR=evd))
            out_all += rr.stdout
            if rr.returncode != 0 and 'VIOLATION' not in rr.stdout:
                viol.append((p, 'CRASH', (rr.stderr or '')[-200:]))
            for line in rr.stdout.splitlines():
                if line.startswith('VIOLATION'):
                    k = re.search(r'key=(\S+)', line)
                    kind = re.search(r'kind=(\S+)', line)
                    viol.append((p, k.group(1) if k else '?', kind.group(1) if kind else '?'))
    finally:
        shutil.rmtree(evd, ignore_errors=True)
        try:
            os.remove(facts)
        except OSError:
            pass
    if m['kind'] == 'break':
        hit = [v for v in viol if v[1].startswith(m['expect'])]
        status = 'killed' if hit else ('killed-other-key' if viol else 'SURVIVED')
    else:
        status = 'silent' if not viol else 'FALSE-ALARM'
    return dict(id=m['id'], status=status, violations=viol[:6], wall=round(time.time() - t0, 1))


def main():
    ap = argparse.ArgumentParser()
    ap.add_argument('--props')
    ap.add_argument('--ids')
    ap.add_argument('--only-prop', help='variants naming this property; run only this property\'s check on them')
    ap.add_argument('--jobs', type=int, default=4)
    ap.add_argument('--repo', default='/repo')
    ap.add_argument('--json')
    a = ap.parse_args()
    sel = M
    if a.props:
        ps = set(a.props.split(','))
        sel = [m for m in sel if ps & set(m['props'])]
    if a.ids:
        ids = set(a.ids.split(','))
        sel = [m for m in sel if m['id'] in ids]
    if a.only_prop:
        sel = [dict(m, props=[a.only_prop]) for m in sel if a.only_prop in m['props']]
        # a variant expected under another property's key prefix counts when this property reports anything
        sel = [dict(m, expect=(m['expect'] if (m['expect'] or '').startswith(a.only_prop) else a.only_prop[:1])) if m['kind'] == 'break' else m for m in sel]
    global SCR
    SCR = '/tmp/skamut_%d' % os.getpid()
    os.makedirs(SCR, exist_ok=True)
    results = []
    try:
        with cf.ThreadPoolExecutor(max_workers=a.jobs) as ex:
            free = list(range(a.jobs))
            import threading
            lock = threading.Lock()

            def task(m):
                with lock:
                    w = free.pop()
                try:
                    return run_one(m, w, a.repo)
                finally:
                    with lock:
                        free.append(w)
            for r in ex.map(task, sel):
                results.append(r)
                print('%-26s %-18s %5.1fs %s' % (r['id'], r['status'], r.get('wall', 0), r.get('violations') or r.get('why', '')), flush=True)
    finally:
        shutil.rmtree(SCR, ignore_errors=True)
    bad = [r for r in results if r['status'] in ('SURVIVED', 'FALSE-ALARM', 'invalid')]
    summ = {}
    for r in results:
        summ[r['status']] = summ.get(r['status'], 0) + 1
    print('MUTATION SUMMARY', summ)
    if a.json:
        json.dump(results, open(a.json, 'w'), indent=1)
    return 1 if bad else 0


if __name__ == '__main__':
    sys.exit(main())
