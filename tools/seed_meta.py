#!/usr/bin/env python3
"""seed_meta.py <name> <property> <detecting key> <history...> : finalise /verif/seeded/<name>/meta.json"""
import json, os, sys
n, pid, key = sys.argv[1:4]
hist = ' '.join(sys.argv[4:])
d = '/verif/seeded/%s' % n
a = json.load(open(d + '/meta.agent.json'))
v = open(d + '/.verify').read().strip().split('|')
m = dict(property=pid, summary=a.get('summary'), needs=a.get('needs'), files=a.get('files'),
         origin='independent sub-agent given only the property text and a scratch worktree (/tmp/wt_%s); never saw /verif' % n,
         confirmed=dict(tests_with_change=v[0], demo_exit_with_change=int(v[1]), demo_exit_without=int(v[2]),
                        commands=['git apply seed/patch.diff', 'cargo test --offline --no-fail-fast', 'bash seed/demo.sh <tree>',
                                  'git checkout -- src', 'bash seed/demo.sh <tree>']),
         detection=dict(check='./check %s' % pid, key=key, history=hist,
                        how='tools/seed_check.sh %s  (git -C /repo apply; run checks; git -C /repo checkout -- .)' % n))
json.dump(m, open(d + '/meta.json', 'w'), indent=1)
os.remove(d + '/.verify'); os.remove(d + '/meta.agent.json')
print('ok', n)
