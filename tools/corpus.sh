#!/bin/bash
# corpus.sh [benign|seeded|all] : regression over the stored patch corpus.
#   CORPUS_ONLY=<regex> restricts the run to matching patch names; CORPUS_PROPS="C04 C12" restricts the checks that are run
#   (with CORPUS_PROPS a seeded change of another property shows as MISSED: read only the benign lines and the listed properties)
#   benign/*.diff  behaviour-preserving rewrites -> every check must stay silent (a VIOLATION is a false alarm)
#   seeded/*/patch.diff  property-breaking changes -> the property's own check must report a VIOLATION
# Facts of each patched tree are extracted once (sequentially, in a scratch worktree of /repo under /tmp that is removed afterwards), then all 20
# checks run on the stored facts in parallel.
cd /verif
WHAT=${1:-all}
PF=/verif/.cache/pf; mkdir -p $PF
list=()
if [ "$WHAT" != seeded ]; then for d in benign/*.diff; do list+=("benign:$(basename $d .diff):$d"); done; fi
if [ "$WHAT" != benign ]; then for d in seeded/*/patch.diff; do list+=("seeded:$(basename $(dirname $d)):$d"); done; fi
if [ -n "${CORPUS_ONLY:-}" ]; then tmp=(); for e in "${list[@]}"; do IFS=: read kind name diff <<< "$e"; [[ "$name" =~ $CORPUS_ONLY ]] && tmp+=("$e"); done; list=("${tmp[@]}"); fi
for e in "${list[@]}"; do
  IFS=: read kind name diff <<< "$e"
  f=$PF/$kind-$name.json
  if [ ! -s $f ] || [ $diff -nt $f ]; then tools/patch_facts_wt.sh $diff $f >/dev/null 2>&1 || echo "EXTRACT-FAILED $kind $name"; fi
done
# the scratch worktree and its build output are only needed for the extraction above
[ -d /tmp/pf_wt ] && git -C /repo worktree remove --force /tmp/pf_wt >/dev/null 2>&1; rm -rf /tmp/pf_tgt
run_one() {
  IFS=: read kind name diff <<< "$1"
  f=/verif/.cache/pf/$kind-$name.json
  EV=$(mktemp -d)
  out=""
  for p in ${CORPUS_PROPS:-C01 C02 C03 C04 C05 C06 C07 C08 C09 C10 C11 C12 C13 C14 C15 C16 C17 C18 C19 C20}; do
    v=$(VERIF_EVIDENCE_DIR=$EV python3 -m sa.run $p --facts $f 2>&1 | grep -E "^VIOLATION" | sed -E 's/.*key=([^ ]+) kind=([^ ]+).*/\1[\2]/' | tr '\n' ' ')
    [ -n "$v" ] && out="$out $v"
  done
  rm -rf $EV
  if [ $kind = benign ]; then
    [ -z "$out" ] && echo "benign $name: silent" || echo "benign $name: FALSE-ALARM $out"
  else
    prop=$(python3 -c "import json;print(json.load(open('/verif/seeded/$name/meta.json'))['property'])")
    if echo "$out" | grep -Eq "$prop[.:]"; then echo "seeded $name ($prop): detected $out"; else echo "seeded $name ($prop): MISSED $out"; fi
  fi
}
export -f run_one
export CORPUS_PROPS
printf '%s\n' "${list[@]}" | xargs -P 15 -I{} bash -c 'run_one "{}"' | sort
