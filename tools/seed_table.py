#!/usr/bin/env python3
"""seed_table.py <corpus.log> (a partial log keeps the recorded state of the seeds it does not list) : refresh seeded/*/meta.json `detection.now` from a tools/corpus.sh run and print the
DESIGN.md section 11 table (markdown)."""
import json, os, re, sys
log = open(sys.argv[1]).read().splitlines()
now = {}
for l in log:
    m = re.match(r'seeded (\S+) \((C\d\d)\): (detected|MISSED)\s*(.*)', l)
    if m:
        now[m.group(1)] = (m.group(3), m.group(4).split())
rows = []
for n in sorted(os.listdir('/verif/seeded')):
    mp = '/verif/seeded/%s/meta.json' % n
    if not os.path.exists(mp):
        continue
    d = json.load(open(mp))
    if n in now:
        st, keys = now[n]
        own = [k for k in keys if k.startswith((d['property'] + '.', d['property'] + ':'))]
        other = sorted({re.split(r'[.:]', k)[0] for k in keys if not k.startswith((d['property'] + '.', d['property'] + ':'))})
    else:       # not in this (partial) corpus run: keep what the last run that covered the seed recorded
        prev = d['detection'].get('now') or {}
        st, own, other = prev.get('status', '?'), prev.get('own_keys', []), prev.get('other_properties', [])
    d['detection']['now'] = dict(status=st, own_keys=own, other_properties=other)
    json.dump(d, open(mp, 'w'), indent=1)
    kind = 'precise' if any(k.endswith('[violation]') for k in own) else ('thorough tier only' if any('(thorough)' in k for k in own) else ('fail-closed' if own else 'MISSED'))
    summ = (d.get('summary') or '').replace('|', '/').replace('\n', ' ')
    needs = (d.get('needs') or '').replace('|', '/').replace('\n', ' ')
    rows.append('| %s | %s | %s *(needs: %s)* | `%s`%s | %s | %s |' % (
        n, d['property'], summ[:260], needs[:200], ' '.join(k.replace('[violation]', '').replace('[anchor-lost]', ' (anchor-lost)') for k in own)[:200],
        (' (also ' + ', '.join(other) + ')') if other else '', kind, d['detection']['history']))
print('| seed | property | change (needs) | reported now by (key) | now | history |')
print('|------|----------|----------------|-----------------------|-----|---------|')
print('\n'.join(rows))
