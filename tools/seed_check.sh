#!/bin/bash
# seed_check.sh <name> [props...] : apply /verif/seeded/<name>/patch.diff to /repo, run the checks, undo it straight afterwards
NAME="$1"; shift; PROPS="${@:-C01 C02 C03 C04 C05 C06 C07 C08 C09 C10 C11 C12 C13 C14 C15 C16 C17 C18 C19 C20}"
cd /verif
git -C /repo diff --quiet || { echo "/repo not clean"; exit 2; }
git -C /repo apply /verif/seeded/$NAME/patch.diff || exit 2
trap 'git -C /repo checkout -- .' EXIT
F=/verif/.cache/facts-seed.json
./extract.sh $F /repo || { echo "EXTRACT FAILED"; exit 3; }
EV=$(mktemp -d)
for p in $PROPS; do
  VERIF_EVIDENCE_DIR=$EV python3 -m sa.run $p --facts $F 2>&1 | grep -E "^VIOLATION" | cut -c1-330
done
rm -rf $EV $F
