#!/bin/bash
# patch_facts.sh <patch.diff> <out.json> : facts of /repo with the patch applied (patch is undone straight afterwards)
cd /verif
git -C /repo diff --quiet || { echo "/repo not clean"; exit 2; }
git -C /repo apply "$(realpath "$1")" || exit 2
trap 'git -C /repo checkout -- .' EXIT
./extract.sh "$2" /repo || { echo "EXTRACT FAILED"; exit 3; }
