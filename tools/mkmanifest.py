#!/usr/bin/env python3
"""Regenerate MANIFEST.json from the claims table below (keeps it schema-valid)."""
import json, os
V = os.path.dirname(os.path.dirname(os.path.abspath(__file__)))
props = [json.loads(l) for l in open(os.path.join(V, 'properties.jsonl'))]
TRUST = 'Trusts rustc nightly MIR/const-eval for the ska crate (same source and cfg as the stable build) and the analyses in sa/.'
CLAIMS = {
 'C01': ('other', 'Structural necessary conditions of exact k-mer enumeration, each decided for all inputs of its finite/affine domain: every end-of-record guard of SplitKmer::build/roll_fwd is tight against the bounds checks it protects (a window ending at the record end is kept, no read out of bounds), on a grid complete for unit-coefficient affine comparisons; all SplitKmer::new call sites pass seq()/num_bases() of one record; get_curr_kmer picks the lower orientation with its own middle base; add_to_dict / add_palindrome_to_dict decision tables equal the IUPAC union; the first-k-mer and loop blocks of add_file_kmers apply the same 16-row predicate. Packing/rolling/decoding exactness is C16; table contents are C15. The end-to-end statement over all record sets additionally relies on the trusted FASTA parser.',
         'static analysis: predicate extraction + tightness check of guards vs. MIR bounds assertions, finite-domain abstract interpretation, sibling-block truth tables'),
 'C04': ('other', 'Decides the clauses visible in code shape: reference bytes reach the alignment and the VCF comparison only upper-cased (container-level taint from SequenceRecord::seq() with to_ascii_uppercase sanitizers); all three prefix-sum accumulators of contig lengths advance their index by exactly one per addition; RefKmer fields come from one k-mer tuple with pos = get_middle_pos() and the strand-correction closure is RC_IUPAC iff rc (C15.use:map); stored middle base is N iff is_ambiguous && mask_ambig; finalise order contigs -> middle bases -> repeat mask under != gap; no crate call passes same-typed named flags swapped (141 call sites); output length = sum of contig lengths per mapped sample. The incremental writer gap geometry (next_pos/last_mapped/last_written for arbitrary gaps) needs relational integer invariants outside these domains and is NOT decided.',
         'static analysis: taint with sanitizers, accumulator/index discipline, provenance, path-condition truth tables over MIR'),
 'C05': ('other', 'Decides the conversion structure: genotype decision table ("0" iff mapped == ref, "." iff gap, else 1-based ALT index) extracted from switch edges; `variant` set exactly on the non-reference paths and write_record gated by it; u8_to_base over all 256 bytes; POS = map_pos+1, CHROM = chrom_names[map_chrom], REF = seq[map_chrom][map_pos]; header order; IdxCheck maps the concatenated index to (contig, offset) for all contig-length vectors with <=3 contigs of length 1..3; reference case normalisation (shared with C04). noodles_vcf output formatting is trusted.',
         'static analysis: predicate extraction, finite-domain abstract interpretation, provenance over MIR'),
 'C08': ('other', 'Structural necessary conditions of delete on every path: the names-file reader accepts a one-name line; both refusals of delete_samples diverge and dominate the replacement of the table, and generic_modes::delete reaches save only through delete_samples (refused => file untouched); update_counts(false) on every path from the column removal to return; a name is dropped iff its column index is recorded and a column is skipped iff its index equals the next recorded one. Order preservation of ndarray::push_column is trusted.',
         'static analysis: MIR dominance / must-pass-through / decision-edge rules'),
 'C09': ('other', 'Structural necessary conditions decided on every path: the deserialiser rejects a stored width != IntT::n_bits() before any Ok return; the u64/u128 branches of all ten dispatching arms of main are call-for-call siblings with provenance-identical arguments and diverge when both widths fail; Build/Cov pick u64 iff k<=31 and all four k validators accept exactly odd 5..=63. Round-trip fidelity of CBOR/snappy is library behaviour and is not decided.',
         'static analysis: MIR dominance/path rules, sibling-region comparison, predicate evaluation over all k'),
 'C10': ('other', 'Decides the history-independence clause that is visible in code shape: the serialised derived field variant_count is recounted (in the mode the decision needs) before every decision that reads it; who-may-read tables for the non-content fields variant_count/ska_version/k_bits; recount after column deletion. Equality with a plain-table model over all operation histories is not enumerated.',
         'static analysis: typestate/dominance over MIR, who-may-read field tables'),
 'C11': ('other', 'Decides the schedule-independent structure: on every path of every subcommand arm the global rayon pool is initialised fatally at most once (interprocedural effect counting with result-variant-indexed summaries, so mutually exclusive load outcomes are not added); every closure handed to rayon outside skalo captures no shared mutable state; par_bridge only in skalo and distance rows gathered by an indexed collect; parallel_append/multi_append pass (bottom, offset) and (top, offset+split_point) with sample index = enumerate index + offset; the join combiner is bitwise OR. Equality of `ska lo` outputs across schedules depends on run-time hash seeds and is not decided.',
         'static analysis: interprocedural typestate/effect summaries over MIR, closure capture audit, affine provenance of offsets'),
 'C12': ('other', 'Decides the deterministic part of read filtering: valid_qual is PHRED >= min_qual on the complete 94x94 grid; the accept predicate in build and the restart predicate in roll_fwd are exact negations (8-row truth table extracted from switch edges) and test the position about to be consumed; middle_base_qual decision table; the counting filter reports Equal exactly when the observation count reaches min_count (min_count 0..7 x 9 observations) with bloom word update w|f / test w&f==f and location < range; one filter per sample shared by both files, initialised before use and consulted only for reads. The hash obligations are C16. The Bloom collision rate (<0.1%) is a probabilistic runtime quantity and is not decided.',
         'static analysis: predicate extraction from MIR switch edges + finite-domain abstract interpretation'),
 'C14': ('other', 'Decides: the constant-site count added to the matches excludes frequency-rejected k-mers (backward slice of the `constant` argument to its producing counter + control dependence of its increments + the user frequency filter dominates the distance computation); variant_dist over all 16x16 symbol pairs (x2 constants, plus accumulation) equals the specified SNP/mismatch formula with the 0/0 guard; each unordered pair is enumerated once with names aligned to columns (affine provenance of the ranges); collection is indexed (C11.bridge). Value range [0,1] follows from the formula and is not separately decided.',
         'static analysis: backward slice + control dependence over MIR, finite-domain abstract interpretation, affine provenance'),
 'C15': ('proof', 'All constrained cells of IUPAC (1024), RC_IUPAC (255), is_ambiguous, base_to_prob, encode/decode/rc/valid_base and the two use sites are enumerated from const-eval and MIR and compared with the IUPAC set algebra; finite domain, complete.',
         'static analysis: const-evaluated table enumeration + finite-domain abstract interpretation of MIR'),
 'C16': ('proof', 'For every (width, k, strand mode) — 88 configurations — the packing, reverse-complement, rolling and ntHash code is abstractly interpreted over MIR with every base a pair of symbolic bits (bit-provenance domain; XOR-term domain for hashes); each obligation compares the resulting provenance vector with the specified layout, so each configuration covers all 4^k k-mers. rev_comp is checked for every size n up to W/2. N-skipping control flow is decided under C01/C12.',
         'static analysis: abstract interpretation of MIR in bit-provenance and XOR-term domains'),
 'C19': ('other', 'Decides the repository side only: save/load are mirror-image stacks (CBOR over snappy frames over buffered file) and the only (de)serialiser call sites; every fallible call in load propagates its error; no main arm proceeds after both width attempts fail; delete/weed save as their last effect. That the snappy CRC and ciborium decode detect every truncation/bit flip is library behaviour: trusted, not decided.',
         'static analysis: type-resolved call-chain, error-flow and who-may-call rules over MIR'),
}
NA = {}
checks = []
for p in props:
    pid = p['id']
    if pid in CLAIMS:
        cat, text, tech = CLAIMS[pid]
        checks.append(dict(property_id=pid, quick_cmd='./check %s --tier quick' % pid, thorough_cmd='./check %s --tier thorough' % pid,
                           evidence_file='/verif/evidence/%s.json' % pid, replay_cmd_template='./check %s --replay {path}' % pid,
                           engine='skamir+sa', level_claimed=dict(category=cat, text=text, design_ref='DESIGN.md §5 %s' % pid),
                           level_note=TRUST, technique=tech))
m = dict(version=1, setup_cmd='./setup.sh',
         hooks=dict(guard='bacpop_ska_rust_verif', enable='none needed: the driver reads private MIR directly (no hooks in /repo)',
                    baseline_off_cmd='cd /repo && cargo test --workspace --no-fail-fast --offline', source_commits=[], add_only=True),
         engines=[dict(name='skamir', path='driver/', serves_properties=[p['id'] for p in props],
                       kind_free_text='rustc_private MIR fact extractor (RUSTC_WORKSPACE_WRAPPER under cargo +nightly check)'),
                  dict(name='sa', path='sa/', serves_properties=[p['id'] for p in props],
                       kind_free_text='Python static analyses over extracted MIR: CFG/dominators, predicate extraction, abstract interpretation, typestate, taint')],
         checks=checks, notes='Static analysis only; see DESIGN.md. Known findings / fixed defects: known_findings.txt.',
         not_applicable=[dict(property_id=p['id'], reason=NA.get(p['id'], 'check under construction in this session (DESIGN.md §10 order); not yet claimed'))
                         for p in props if p['id'] not in CLAIMS])
json.dump(m, open(os.path.join(V, 'MANIFEST.json'), 'w'), indent=1)
print('claimed:', [c['property_id'] for c in checks])
