#!/bin/bash
# patch_facts_wt.sh <patch.diff> <out.json> : like patch_facts.sh but in a scratch worktree (/repo itself untouched), so it can
# run while other checks extract from /repo.  PF_WT (default /tmp/pf_wt) is created on demand; remove it with
# `git -C /repo worktree remove --force $PF_WT` when done.
cd /verif
WT=${PF_WT:-/tmp/pf_wt}
[ -d $WT ] || git -C /repo worktree add --detach $WT HEAD >/dev/null 2>&1 || exit 2
git -C $WT checkout -- . ; git -C $WT clean -fdq
git -C $WT apply "$(realpath "$1")" || exit 2
SKAMIR_TARGET=${PF_TGT:-/tmp/pf_tgt} ./extract.sh "$2" $WT || { echo "EXTRACT FAILED"; exit 3; }
git -C $WT checkout -- .
