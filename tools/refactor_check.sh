#!/bin/bash
# refactor_check.sh <patch.diff> : apply a behaviour-preserving patch to /repo, run all 20 checks, undo it.
# Any VIOLATION line is a false alarm.
D="$1"
cd /verif
git -C /repo diff --quiet || { echo "/repo not clean"; exit 2; }
git -C /repo apply "$D" || exit 2
trap 'git -C /repo checkout -- .' EXIT
F=/verif/.cache/facts-refac.json
./extract.sh $F /repo || { echo "EXTRACT FAILED"; exit 3; }
EV=$(mktemp -d)
for p in C01 C02 C03 C04 C05 C06 C07 C08 C09 C10 C11 C12 C13 C14 C15 C16 C17 C18 C19 C20; do
  VERIF_EVIDENCE_DIR=$EV python3 -m sa.run $p --facts $F 2>&1 | grep -E "^VIOLATION" | cut -c1-300
done
rm -rf $EV $F
