#!/bin/bash
# seed_verify.sh <Cxx> [name] : confirm an independently seeded change in its scratch worktree /tmp/wt_<Cxx>
# (compiles, suite passes, demo fails with / passes without), then store it under /verif/seeded/<name>.
set -u
P="$1"; NAME="${2:-$P}"; WT=${WTDIR:-/tmp/wt_$P}; S=$WT/seed
export CARGO_TARGET_DIR=$WT/target CARGO_NET_OFFLINE=true
cd $WT || exit 2
git checkout -q -- src; git apply --check $S/patch.diff || { echo "patch does not apply"; exit 2; }
git apply $S/patch.diff
T=$(cargo test --offline --no-fail-fast 2>&1 | grep -E "^test result" | awk '{p+=$4; f+=$6} END {print p" passed "f" failed"}')
echo "tests with change: $T"
bash $S/demo.sh $WT > /tmp/demo_with_$P.log 2>&1; W=$?
git checkout -q -- src
bash $S/demo.sh $WT > /tmp/demo_without_$P.log 2>&1; WO=$?
echo "demo with change: exit $W ; without: exit $WO"
rm -f $WT/merged.skf $WT/no_const_sites.skf
mkdir -p /verif/seeded/$NAME && cp $S/patch.diff $S/demo.sh /verif/seeded/$NAME/ && cp $S/meta.json /verif/seeded/$NAME/meta.agent.json
echo "$T|$W|$WO" > /verif/seeded/$NAME/.verify
