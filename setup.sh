#!/bin/bash
# Build the skamir driver and warm the dependency cache (offline, from files on disk only).
set -e
cd "$(dirname "$0")"
export CARGO_NET_OFFLINE=true
(cd driver && cargo build --release --offline 2>&1 | tail -2)
mkdir -p .cache
./extract.sh .cache/facts-setup.json /repo
python3 - <<'PY'
import json
d=json.load(open('.cache/facts-setup.json'))
print('setup: facts ok', d['manifest'])
PY
rm -f .cache/facts-setup.json .cache/facts-setup.json.bin
